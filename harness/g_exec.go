package main

import (
	"bufio"
	"encoding/json"
	"fmt"
	"math/rand"
	"os"
)

// exec: seeded random programs over the AST schema of spec/Exec.tla (binding T for the executor family).
// The programs are emitted with EVERY field the TLA+ reference reads (TLC records have no optional fields).
// They are chosen by the harness, not by the specification; TLC computes the reference behaviour from the
// AST it finds in the trace and accepts or rejects the recorded events (spec/props/ExecTrace.tla).

type obj = map[string]interface{}

func bytesOf(s string) []int {
	out := make([]int, len(s))
	for i := 0; i < len(s); i++ {
		out[i] = int(s[i])
	}
	return out
}

var noE = obj{"k": "none"}

func eName(n string) obj { return obj{"k": "name", "n": n} }
func eNum(q int) obj     { return obj{"k": "num", "q": q} }
func eInt(n int) obj     { return eNum(n * 64) }
func eStr(s string) obj  { return obj{"k": "str", "s": bytesOf(s)} }
func eGrp(x obj) obj     { return obj{"k": "group", "x": x} }
func eBin(op string, l, r obj) obj {
	return obj{"k": "bin", "op": op, "l": l, "r": r}
}
func eCall(name string, args ...obj) obj {
	if args == nil {
		args = []obj{}
	}
	return obj{"k": "call", "name": name, "args": args}
}
func ePipe(x obj, name string, args ...obj) obj {
	if args == nil {
		args = []obj{}
	}
	return obj{"k": "pipe", "x": x, "name": name, "args": args}
}
func eAttrDot(c obj, key string) obj {
	return obj{"k": "attr", "c": c, "key": eStr(key), "br": false, "args": []obj{}, "call": false}
}
func eAttrCall(c obj, key string, args ...obj) obj {
	if args == nil {
		args = []obj{}
	}
	return obj{"k": "attr", "c": c, "key": eStr(key), "br": false, "args": args, "call": true}
}
func eAttrBr(c, key obj) obj {
	return obj{"k": "attr", "c": c, "key": key, "br": true, "args": []obj{}, "call": false}
}
func sText(s string) obj       { return obj{"k": "text", "d": bytesOf(s)} }
func sPrint(x obj) obj         { return obj{"k": "print", "x": x} }
func sSet(n string, x obj) obj { return obj{"k": "set", "name": n, "x": x} }
func sSetCap(n string, body []obj) obj {
	return obj{"k": "setcap", "name": n, "body": body}
}
func sIf(branches []obj, els []obj, he bool) obj {
	return obj{"k": "if", "branches": branches, "els": els, "he": he}
}
func sFor(kn, vn string, x, cond obj, body, els []obj, he bool) obj {
	return obj{"k": "for", "kn": kn, "vn": vn, "x": x, "cond": cond, "body": body, "els": els, "he": he}
}
func sFilter(names []string, body []obj) obj { return obj{"k": "filter", "names": names, "body": body} }
func sBlock(n string, body []obj) obj        { return obj{"k": "block", "name": n, "body": body} }
func sMacro(n string, params []string, body []obj) obj {
	return obj{"k": "macro", "name": n, "params": params, "body": body}
}
func sInclude(x, with obj, only bool) obj {
	return obj{"k": "include", "x": x, "with": with, "only": only}
}
func sExtends(x obj) obj { return obj{"k": "extends", "x": x} }

type execGen struct {
	rng    *rand.Rand
	vars   []string // names that may be defined
	macros int
	defs   []obj
	nprobe int
	blocks int
	closed []int // blocks whose body is complete
	// names bound by enclosing constructs (loop variables, macro parameters): worth reading, they change between evaluations
	scopeVars []string
	lib       bool // the program imports the macro library
	uses      bool // the program uses the block library
	rich      bool // the wider grammar (second half of every run)
}

func (g *execGen) pick(xs ...string) string { return xs[g.rng.Intn(len(xs))] }
func (g *execGen) pickE(xs ...obj) obj      { return xs[g.rng.Intn(len(xs))] }

// small expressions that stay inside the reference's region most of the time
func (g *execGen) atom() obj {
	switch g.rng.Intn(8) {
	case 0, 1:
		return eInt(g.rng.Intn(9))
	case 2:
		return eNum([]int{32, 96, 16, 160}[g.rng.Intn(4)])
	case 3:
		return eStr(g.pick("", "a", "ab", "x-", "Q"))
	case 4, 5:
		if len(g.scopeVars) > 0 && g.rng.Intn(3) == 0 {
			return eName(g.scopeVars[g.rng.Intn(len(g.scopeVars))])
		}
		return eName(g.vars[g.rng.Intn(len(g.vars))])
	case 6:
		return obj{"k": "bool", "b": g.rng.Intn(2) == 0}
	default:
		return obj{"k": "null"}
	}
}

func (g *execGen) expr(depth int) obj {
	if depth <= 0 || g.rng.Intn(3) == 0 {
		return g.atom()
	}
	sub := func() obj {
		e := g.expr(depth - 1)
		if k := e["k"]; k == "bin" || k == "un" || k == "tern" || k == "test" {
			return eGrp(e)
		}
		return e
	}
	if g.rich && g.rng.Intn(3) == 0 {
		switch g.rng.Intn(9) {
		case 0:
			return eBin(g.pick("in", "not in"), sub(), g.pickE(eName("arr"), eName("h"), eStr("xab"), obj{"k": "arr", "els": []obj{g.atom(), g.atom()}}, eGrp(eBin("..", eInt(1), eInt(3)))))
		case 1:
			return eBin(g.pick("starts with", "ends with"), g.pickE(eName("y"), eStr("abc"), g.atom()), g.pickE(eStr("a"), eStr("b"), eStr(""), g.atom()))
		case 2:
			// the pattern is a literal, a context variable or whatever is in scope (a loop variable, a macro parameter)
			return eBin("matches", g.pickE(eName("y"), eStr("abc"), eStr("b")), g.pickE(eStr("^a"), eStr("b$"), eName("pat"), g.atom()))
		case 3:
			return eBin(g.pick("b-and", "b-or", "b-xor"), eInt(g.rng.Intn(8)), g.pickE(eInt(g.rng.Intn(8)), eName("x")))
		case 4:
			return obj{"k": "test", "x": sub(), "neg": g.rng.Intn(2) == 0, "name": "divisible by", "args": []obj{eInt(1 + g.rng.Intn(3))}}
		case 5:
			op := g.pick("not", "-")
			return obj{"k": "un", "op": op, "x": obj{"k": "un", "op": g.pick(op, "not", "-"), "x": sub()}}
		case 6:
			hs := obj{"k": "hash", "pairs": [][]obj{{eName("k"), sub()}, {eStr("j"), g.atom()}}}
			if g.rng.Intn(2) == 0 {
				return eAttrDot(hs, g.pick("k", "j", "nope"))
			}
			return eAttrBr(hs, eStr(g.pick("k", "j")))
		case 7:
			return obj{"k": "tern", "c": sub(), "t": sub(), "f": eGrp(obj{"k": "tern", "c": sub(), "t": g.atom(), "f": g.atom()})}
		default:
			return eAttrBr(eName("arr"), g.pickE(eInt(g.rng.Intn(4)), eName("x"), g.atom()))
		}
	}
	switch g.rng.Intn(12) {
	case 0, 1, 2:
		return eBin(g.pick("+", "-", "*", "~", "//", "%", "**"), sub(), sub())
	case 3:
		return eBin(g.pick("<", "<=", ">", ">=", "==", "!="), sub(), sub())
	case 4:
		return eBin(g.pick("and", "or"), sub(), sub())
	case 5:
		return obj{"k": "un", "op": g.pick("not", "-", "+"), "x": sub()}
	case 6:
		return obj{"k": "tern", "c": sub(), "t": sub(), "f": sub()}
	case 7:
		return eCall("id", sub())
	case 8:
		return ePipe(sub(), g.pick("rec", "up", "wrap"))
	case 9:
		return obj{"k": "test", "x": sub(), "neg": g.rng.Intn(2) == 0, "name": g.pick("odd", "even", "yes"), "args": []obj{}}
	case 10:
		// no string containing a double quote may appear inside an interpolated string (stick finds the end of the
		// literal by searching for the next quote), so the interpolated parts are atoms or arithmetic on atoms
		return obj{"k": "interp", "parts": []obj{eStr("<"), g.atom(), eStr("|"), eGrp(eBin(g.pick("+", "*", "~"), g.atom(), g.atom())), eStr(">")}}
	default:
		return eAttrBr(obj{"k": "arr", "els": []obj{sub(), sub(), sub()}}, eInt(g.rng.Intn(4)))
	}
}

func (g *execGen) seqExpr() obj {
	switch g.rng.Intn(6) {
	case 0:
		return obj{"k": "arr", "els": []obj{}}
	case 1:
		return eBin("..", eInt(g.rng.Intn(3)), eInt(g.rng.Intn(5)))
	case 2:
		return eName("arr")
	case 3:
		return obj{"k": "hash", "pairs": [][]obj{{eName("k"), g.atom()}}}
	case 4:
		return obj{"k": "null"}
	default:
		n := 1 + g.rng.Intn(3)
		els := make([]obj, n)
		for i := range els {
			els[i] = g.atom()
		}
		return obj{"k": "arr", "els": els}
	}
}

func (g *execGen) probe() obj {
	g.nprobe++
	return sPrint(eCall("_p", eInt(g.nprobe)))
}

func (g *execGen) stmts(depth, n int, inMacro bool) []obj {
	out := []obj{}
	for i := 0; i < n; i++ {
		out = append(out, g.stmt(depth, inMacro)...)
	}
	return out
}

func (g *execGen) stmt(depth int, inMacro bool) []obj {
	r := g.rng.Intn(16)
	if g.rich {
		r = g.rng.Intn(22) // 15..21: the constructs of the wider grammar
	}
	if depth <= 0 && r >= 5 && r < 15 {
		r = g.rng.Intn(5)
	}
	switch r {
	case 0, 1:
		return []obj{sText(g.pick("a", "b;", "<x>", "\n", " - ", "}", "%"))}
	case 2, 3:
		return []obj{sPrint(g.expr(2))}
	case 4:
		return []obj{g.probe()}
	case 5:
		v := g.vars[g.rng.Intn(3)]
		return []obj{sSet(v, g.expr(2))}
	case 6:
		nb := 1 + g.rng.Intn(3)
		br := make([]obj, nb)
		for i := range br {
			br[i] = obj{"c": g.expr(1), "body": g.stmts(depth-1, 1+g.rng.Intn(2), inMacro)}
		}
		he := g.rng.Intn(2) == 0
		els := []obj{}
		if he {
			ne := 1
			if g.rich {
				ne = 1 + g.rng.Intn(3)
			}
			els = g.stmts(depth-1, ne, inMacro)
		}
		return []obj{sIf(br, els, he)}
	case 7, 8:
		kn := ""
		if g.rng.Intn(3) == 0 {
			kn = "k"
		}
		vn := g.pick("v", "x", "w")
		cond := noE
		saved := g.scopeVars
		g.scopeVars = append(append([]string{}, saved...), vn)
		body := g.stmts(depth-1, 1+g.rng.Intn(2), inMacro)
		g.scopeVars = saved
		if g.rng.Intn(4) == 0 {
			cond = eBin(">", eName(vn), eInt(1))
		} else {
			body = append(body, sPrint(eAttrDot(eName("loop"), g.pick("index", "index0", "revindex", "revindex0", "first", "last", "length"))))
		}
		body = append(body, sPrint(eName(vn)))
		he := g.rng.Intn(2) == 0
		els := []obj{}
		if he {
			els = []obj{sText("E")}
		}
		return []obj{sFor(kn, vn, g.seqExpr(), cond, body, els, he)}
	case 9:
		v := g.pick("c1", "c2")
		return []obj{sSetCap(v, g.stmts(depth-1, 1+g.rng.Intn(2), inMacro)), sPrint(eName(v))}
	case 10:
		names := []string{g.pick("up", "wrap", "rec")}
		if g.rich {
			for k := g.rng.Intn(3); k > 0; k-- {
				names = append(names, g.pick("up", "wrap", "rec"))
			}
		}
		nb := 1 + g.rng.Intn(2)
		if g.rich && g.rng.Intn(5) == 0 {
			nb = 0 // a section that captures nothing
		}
		return []obj{sFilter(names, g.stmts(depth-1, nb, inMacro))}
	case 11:
		if inMacro {
			return []obj{sText("m")}
		}
		g.macros++
		name := fmt.Sprintf("m%d", g.macros)
		params := []string{"p1", "p2"}[:g.rng.Intn(3)]
		if g.rich && g.rng.Intn(2) == 0 {
			params = [][]string{{"x"}, {"x", "y"}, {"y", "x"}, {"p1", "x"}, {"v", "p1"}}[g.rng.Intn(5)]
		}
		body := []obj{sText("M(")}
		for _, p := range params {
			body = append(body, sPrint(eName(p)), sText(","))
		}
		saved := g.scopeVars
		g.scopeVars = append([]string{}, params...)
		body = append(body, g.stmts(depth-1, 1, true)...)
		g.scopeVars = saved
		body = append(body, sText(")"))
		g.defs = append(g.defs, sMacro(name, params, body))
		mkargs := func() []obj {
			args := []obj{}
			for i := g.rng.Intn(3); i > 0; i-- {
				if g.rich && g.rng.Intn(2) == 0 {
					args = append(args, g.expr(1))
				} else {
					args = append(args, g.atom())
				}
			}
			return args
		}
		out := []obj{sPrint(eAttrCall(eName("_self"), name, mkargs()...))}
		if g.rich && g.rng.Intn(3) == 0 {
			// the same macro again with other arguments, and once as the argument of itself
			out = append(out, sText("+"), sPrint(eAttrCall(eName("_self"), name, mkargs()...)))
			if len(params) > 0 && g.rng.Intn(2) == 0 {
				out = append(out, sPrint(eAttrCall(eName("_self"), name, append([]obj{g.atom()}, eAttrCall(eName("_self"), name, mkargs()...))...)))
			}
		}
		return out
	case 12:
		with := noE
		if g.rng.Intn(2) == 0 {
			with = obj{"k": "hash", "pairs": [][]obj{{eName("x"), g.atom()}}}
		}
		return []obj{sInclude(eStr("inc"), with, g.rng.Intn(3) == 0)}
	case 13:
		if inMacro {
			return []obj{sText("b")}
		}
		g.blocks++
		nb := g.blocks
		bl := sBlock(fmt.Sprintf("b%d", nb), g.stmts(depth-1, 1+g.rng.Intn(2), inMacro))
		g.closed = append(g.closed, nb) // only complete blocks may be named by block(): no recursion
		return []obj{bl}
	case 14:
		if g.rng.Intn(2) == 0 {
			with := noE
			if g.rng.Intn(2) == 0 {
				with = obj{"k": "hash", "pairs": [][]obj{{eName("x"), g.atom()}}}
			}
			blocks := []obj{}
			if g.rng.Intn(2) == 0 {
				blocks = append(blocks, obj{"name": "eb", "body": g.stmts(depth-1, 1, true)})
			}
			return []obj{obj{"k": "embed", "x": eStr("emb"), "with": with, "only": g.rng.Intn(2) == 0, "blocks": blocks}}
		}
		return []obj{obj{"k": "do", "x": eCall("id", g.expr(1))}}
	default:
		if !g.rich {
			return []obj{obj{"k": "comment", "d": bytesOf(" c ")}}
		}
		switch g.rng.Intn(7) {
		case 0: // block() of a block defined earlier (or not at all: an error)
			if len(g.closed) > 0 && !inMacro {
				return []obj{sText("<"), sPrint(eCall("block", eStr(fmt.Sprintf("b%d", g.closed[g.rng.Intn(len(g.closed))])))), sText(">")}
			}
			return []obj{sText("nb")}
		case 1: // blocks imported with use
			g.uses = true
			return []obj{sPrint(eCall("block", eStr(g.pick("ub", "ub", "uc"))))}
		case 2, 3: // library macros through an alias and through from-import
			g.lib = true
			a1, a2 := g.expr(1), g.atom()
			switch g.rng.Intn(4) {
			case 0:
				return []obj{sPrint(eAttrCall(eName("L"), "lm1", a1))}
			case 1:
				return []obj{sPrint(eAttrCall(eName("L"), "lm2", a1, a2))}
			case 2:
				return []obj{sPrint(eCall("lm1", a1))}
			default:
				return []obj{sPrint(eCall("q2", a2, a1)), sPrint(eCall("q2", eName("y"), eName("x")))}
			}
		case 4: // include: name computed, variables handed over as a hash variable
			x := g.pickE(eStr("inc"), eBin("~", eStr("in"), eStr("c")), eName("incname"))
			with := g.pickE(noE, eName("h"), obj{"k": "hash", "pairs": [][]obj{{eName("y"), g.atom()}, {eName("x"), g.atom()}}})
			return []obj{sInclude(x, with, g.rng.Intn(2) == 0)}
		case 5: // embed whose override calls parent()
			blocks := []obj{obj{"name": "eb", "body": []obj{sText("o("), sPrint(eCall("parent")), sText(")"), sPrint(eName("x"))}}}
			return []obj{obj{"k": "embed", "x": eStr("emb"), "with": noE, "only": g.rng.Intn(3) == 0, "blocks": blocks}}
		default:
			if g.rng.Intn(3) > 0 {
				return []obj{obj{"k": "comment", "d": bytesOf(" c ")}}
			}
			// a statement that fails at run time: the error is returned and nothing is written after it
			switch g.rng.Intn(5) {
			case 0:
				return []obj{sPrint(eCall("nosuchfunc"))}
			case 1:
				return []obj{sPrint(ePipe(g.atom(), "nosuchfilter"))}
			case 2:
				return []obj{sInclude(eStr("missing"), noE, false)}
			case 3:
				return []obj{sPrint(eBin("%", eInt(1+g.rng.Intn(5)), eInt(0)))}
			default:
				return []obj{sPrint(eCall("block", eStr("nosuchblock")))}
			}
		}
	}
}

func jv(t string, kv ...interface{}) obj {
	o := obj{"t": t}
	for i := 0; i+1 < len(kv); i += 2 {
		o[kv[i].(string)] = kv[i+1]
	}
	return o
}

func init() {
	generators["exec"] = func(n int, seed int64, tier string) error {
		w := bufio.NewWriter(os.Stdout)
		defer w.Flush()
		rng := rand.New(rand.NewSource(seed))
		depth := 3
		if tier == "thorough" {
			depth = 5
		}
		for i := 0; i < n; i++ {
			g := &execGen{rng: rng, vars: []string{"x", "y", "z", "arr", "s", "undefined_one"}, rich: i%2 == 1}
			if g.rich {
				g.vars = append(g.vars, "h", "pat", "t")
			}
			body := g.stmts(1+rng.Intn(depth), 2+rng.Intn(4), false)
			main := append([]obj{}, g.defs...)
			if g.uses {
				main = append(main, obj{"k": "use", "x": eStr("u"), "aliases": [][]string{}})
			}
			if g.lib {
				main = append(main, obj{"k": "import", "x": eStr("lib"), "alias": "L"},
					obj{"k": "from", "x": eStr("lib"), "imports": [][]string{{"lm1", "lm1"}, {"lm2", "q2"}}})
			}
			main = append(main, body...)
			tpls := obj{"t": main, "inc": []obj{sText("<"), sPrint(eName("x")), sPrint(eName("y")), sSet("x", eInt(99)), sText(">")},
				"emb": []obj{sText("E["), sSet("q", eInt(1)), sBlock("eb", []obj{sText("d")}), sPrint(eName("x")), sSet("x", eInt(7)), sText("]")}}
			tpls["lib"] = []obj{
				sMacro("lm1", []string{"a"}, []obj{sText("lm1("), sPrint(eName("a")), sText(")"), sPrint(eCall("nul", eStr("lib")))}),
				sMacro("lm2", []string{"x", "b"}, []obj{sText("lm2("), sPrint(eName("x")), sText(","), sPrint(eName("b")), sText(")")}),
			}
			tpls["u"] = []obj{sBlock("ub", []obj{sText("UB"), sPrint(eName("x"))}), sBlock("uc", []obj{sText("UC")})}
			entry := "t"
			if g.rich && rng.Intn(4) == 0 {
				// three levels: child -> mid -> t; mid passes everything through or overrides the first block
				mid := []obj{sExtends(eStr("t"))}
				if g.blocks > 0 && rng.Intn(2) == 0 {
					mid = append(mid, sBlock("b1", []obj{sText("M["), sPrint(eCall("parent")), sText("]")}))
				}
				child := []obj{sExtends(eStr("mid"))}
				if rng.Intn(2) == 0 {
					child = append(child, obj{"k": "use", "x": eStr("u"), "aliases": [][]string{}})
				}
				for b := 1; b <= g.blocks; b++ {
					if rng.Intn(2) == 0 {
						child = append(child, sBlock(fmt.Sprintf("b%d", b), []obj{sText("C["), sPrint(eCall("parent")), sText("]"), g.probe()}))
					}
				}
				tpls["mid"] = mid
				tpls["child"] = child
				entry = "child"
			} else if rng.Intn(4) == 0 {
				// an inheriting entry template: overrides the program's blocks, calls parent()
				child := []obj{sExtends(eStr("t"))}
				for b := 1; b <= g.blocks; b++ {
					if rng.Intn(2) == 0 {
						child = append(child, sBlock(fmt.Sprintf("b%d", b), []obj{sText("C["), sPrint(eCall("parent")), sText("]"), g.probe()}))
					}
				}
				tpls["child"] = child
				entry = "child"
			}
			ctx := obj{
				"x": jv("num", "q", 5*64), "y": jv("str", "s", bytesOf("ab")), "z": jv("null"),
				"arr": jv("arr", "els", []obj{jv("num", "q", 64), jv("num", "q", 128), jv("num", "q", 192)}),
				"s":   jv("str", "s", bytesOf("1.5")),
			}
			if g.rich {
				ctx["h"] = jv("hash", "pairs", [][]interface{}{{bytesOf("k"), jv("num", "q", 128)}})
				ctx["pat"] = jv("str", "s", bytesOf("^a"))
				ctx["t"] = jv("bool", "b", true)
				ctx["incname"] = jv("str", "s", bytesOf("inc"))
			}
			b, err := json.Marshal(obj{"id": fmt.Sprintf("x%d-%d", seed, i), "k": "render", "env": "core", "tpls": tpls, "entry": entry, "ctx": ctx})
			if err != nil {
				return err
			}
			w.Write(b)
			w.WriteByte('\n')
		}
		return nil
	}
}
