package main

import (
	"bufio"
	"encoding/json"
	"fmt"
	"math/rand"
	"os"
)

// exec: seeded random programs over the AST schema of spec/Exec.tla (binding T for the executor family).
// The programs are emitted with EVERY field the TLA+ reference reads (TLC records have no optional fields).
// They are chosen by the harness, not by the specification; TLC computes the reference behaviour from the
// AST it finds in the trace and accepts or rejects the recorded events (spec/props/ExecTrace.tla).

type obj = map[string]interface{}

func bytesOf(s string) []int {
	out := make([]int, len(s))
	for i := 0; i < len(s); i++ {
		out[i] = int(s[i])
	}
	return out
}

var noE = obj{"k": "none"}

func eName(n string) obj { return obj{"k": "name", "n": n} }
func eNum(q int) obj     { return obj{"k": "num", "q": q} }
func eInt(n int) obj     { return eNum(n * 64) }
func eStr(s string) obj  { return obj{"k": "str", "s": bytesOf(s)} }
func eGrp(x obj) obj     { return obj{"k": "group", "x": x} }
func eBin(op string, l, r obj) obj {
	return obj{"k": "bin", "op": op, "l": l, "r": r}
}
func eCall(name string, args ...obj) obj {
	if args == nil {
		args = []obj{}
	}
	return obj{"k": "call", "name": name, "args": args}
}
func ePipe(x obj, name string, args ...obj) obj {
	if args == nil {
		args = []obj{}
	}
	return obj{"k": "pipe", "x": x, "name": name, "args": args}
}
func eAttrDot(c obj, key string) obj {
	return obj{"k": "attr", "c": c, "key": eStr(key), "br": false, "args": []obj{}, "call": false}
}
func eAttrCall(c obj, key string, args ...obj) obj {
	if args == nil {
		args = []obj{}
	}
	return obj{"k": "attr", "c": c, "key": eStr(key), "br": false, "args": args, "call": true}
}
func eAttrBr(c, key obj) obj {
	return obj{"k": "attr", "c": c, "key": key, "br": true, "args": []obj{}, "call": false}
}
func sText(s string) obj       { return obj{"k": "text", "d": bytesOf(s)} }
func sPrint(x obj) obj         { return obj{"k": "print", "x": x} }
func sSet(n string, x obj) obj { return obj{"k": "set", "name": n, "x": x} }
func sSetCap(n string, body []obj) obj {
	return obj{"k": "setcap", "name": n, "body": body}
}
func sIf(branches []obj, els []obj, he bool) obj {
	return obj{"k": "if", "branches": branches, "els": els, "he": he}
}
func sFor(kn, vn string, x, cond obj, body, els []obj, he bool) obj {
	return obj{"k": "for", "kn": kn, "vn": vn, "x": x, "cond": cond, "body": body, "els": els, "he": he}
}
func sFilter(names []string, body []obj) obj { return obj{"k": "filter", "names": names, "body": body} }
func sBlock(n string, body []obj) obj        { return obj{"k": "block", "name": n, "body": body} }
func sMacro(n string, params []string, body []obj) obj {
	return obj{"k": "macro", "name": n, "params": params, "body": body}
}
func sInclude(x, with obj, only bool) obj {
	return obj{"k": "include", "x": x, "with": with, "only": only}
}
func sExtends(x obj) obj { return obj{"k": "extends", "x": x} }

type execGen struct {
	rng    *rand.Rand
	vars   []string // names that may be defined
	macros int
	defs   []obj
	nprobe int
	blocks int
}

func (g *execGen) pick(xs ...string) string { return xs[g.rng.Intn(len(xs))] }

// small expressions that stay inside the reference's region most of the time
func (g *execGen) atom() obj {
	switch g.rng.Intn(8) {
	case 0, 1:
		return eInt(g.rng.Intn(9))
	case 2:
		return eNum([]int{32, 96, 16, 160}[g.rng.Intn(4)])
	case 3:
		return eStr(g.pick("", "a", "ab", "x-", "Q"))
	case 4, 5:
		return eName(g.vars[g.rng.Intn(len(g.vars))])
	case 6:
		return obj{"k": "bool", "b": g.rng.Intn(2) == 0}
	default:
		return obj{"k": "null"}
	}
}

func (g *execGen) expr(depth int) obj {
	if depth <= 0 || g.rng.Intn(3) == 0 {
		return g.atom()
	}
	sub := func() obj {
		e := g.expr(depth - 1)
		if k := e["k"]; k == "bin" || k == "un" || k == "tern" || k == "test" {
			return eGrp(e)
		}
		return e
	}
	switch g.rng.Intn(12) {
	case 0, 1, 2:
		return eBin(g.pick("+", "-", "*", "~", "//", "%", "**"), sub(), sub())
	case 3:
		return eBin(g.pick("<", "<=", ">", ">=", "==", "!="), sub(), sub())
	case 4:
		return eBin(g.pick("and", "or"), sub(), sub())
	case 5:
		return obj{"k": "un", "op": g.pick("not", "-", "+"), "x": sub()}
	case 6:
		return obj{"k": "tern", "c": sub(), "t": sub(), "f": sub()}
	case 7:
		return eCall("id", sub())
	case 8:
		return ePipe(sub(), g.pick("rec", "up", "wrap"))
	case 9:
		return obj{"k": "test", "x": sub(), "neg": g.rng.Intn(2) == 0, "name": g.pick("odd", "even", "yes"), "args": []obj{}}
	case 10:
		// no string containing a double quote may appear inside an interpolated string (stick finds the end of the
		// literal by searching for the next quote), so the interpolated parts are atoms or arithmetic on atoms
		return obj{"k": "interp", "parts": []obj{eStr("<"), g.atom(), eStr("|"), eGrp(eBin(g.pick("+", "*", "~"), g.atom(), g.atom())), eStr(">")}}
	default:
		return eAttrBr(obj{"k": "arr", "els": []obj{sub(), sub(), sub()}}, eInt(g.rng.Intn(4)))
	}
}

func (g *execGen) seqExpr() obj {
	switch g.rng.Intn(6) {
	case 0:
		return obj{"k": "arr", "els": []obj{}}
	case 1:
		return eBin("..", eInt(g.rng.Intn(3)), eInt(g.rng.Intn(5)))
	case 2:
		return eName("arr")
	case 3:
		return obj{"k": "hash", "pairs": [][]obj{{eName("k"), g.atom()}}}
	case 4:
		return obj{"k": "null"}
	default:
		n := 1 + g.rng.Intn(3)
		els := make([]obj, n)
		for i := range els {
			els[i] = g.atom()
		}
		return obj{"k": "arr", "els": els}
	}
}

func (g *execGen) probe() obj {
	g.nprobe++
	return sPrint(eCall("_p", eInt(g.nprobe)))
}

func (g *execGen) stmts(depth, n int, inMacro bool) []obj {
	out := []obj{}
	for i := 0; i < n; i++ {
		out = append(out, g.stmt(depth, inMacro)...)
	}
	return out
}

func (g *execGen) stmt(depth int, inMacro bool) []obj {
	r := g.rng.Intn(16)
	if depth <= 0 && r >= 5 {
		r = g.rng.Intn(5)
	}
	switch r {
	case 0, 1:
		return []obj{sText(g.pick("a", "b;", "<x>", "\n", " - ", "}", "%"))}
	case 2, 3:
		return []obj{sPrint(g.expr(2))}
	case 4:
		return []obj{g.probe()}
	case 5:
		v := g.vars[g.rng.Intn(3)]
		return []obj{sSet(v, g.expr(2))}
	case 6:
		nb := 1 + g.rng.Intn(3)
		br := make([]obj, nb)
		for i := range br {
			br[i] = obj{"c": g.expr(1), "body": g.stmts(depth-1, 1+g.rng.Intn(2), inMacro)}
		}
		he := g.rng.Intn(2) == 0
		els := []obj{}
		if he {
			els = g.stmts(depth-1, 1, inMacro)
		}
		return []obj{sIf(br, els, he)}
	case 7, 8:
		kn := ""
		if g.rng.Intn(3) == 0 {
			kn = "k"
		}
		vn := g.pick("v", "x", "w")
		cond := noE
		body := g.stmts(depth-1, 1+g.rng.Intn(2), inMacro)
		if g.rng.Intn(4) == 0 {
			cond = eBin(">", eName(vn), eInt(1))
		} else {
			body = append(body, sPrint(eAttrDot(eName("loop"), g.pick("index", "index0", "revindex", "revindex0", "first", "last", "length"))))
		}
		body = append(body, sPrint(eName(vn)))
		he := g.rng.Intn(2) == 0
		els := []obj{}
		if he {
			els = []obj{sText("E")}
		}
		return []obj{sFor(kn, vn, g.seqExpr(), cond, body, els, he)}
	case 9:
		v := g.pick("c1", "c2")
		return []obj{sSetCap(v, g.stmts(depth-1, 1+g.rng.Intn(2), inMacro)), sPrint(eName(v))}
	case 10:
		return []obj{sFilter([]string{g.pick("up", "wrap", "rec")}, g.stmts(depth-1, 1+g.rng.Intn(2), inMacro))}
	case 11:
		if inMacro {
			return []obj{sText("m")}
		}
		g.macros++
		name := fmt.Sprintf("m%d", g.macros)
		params := []string{"p1", "p2"}[:g.rng.Intn(3)]
		body := []obj{sText("M(")}
		for _, p := range params {
			body = append(body, sPrint(eName(p)), sText(","))
		}
		body = append(body, g.stmts(depth-1, 1, true)...)
		body = append(body, sText(")"))
		g.defs = append(g.defs, sMacro(name, params, body))
		args := []obj{}
		for i := g.rng.Intn(3); i > 0; i-- {
			args = append(args, g.atom())
		}
		return []obj{sPrint(eAttrCall(eName("_self"), name, args...))}
	case 12:
		with := noE
		if g.rng.Intn(2) == 0 {
			with = obj{"k": "hash", "pairs": [][]obj{{eName("x"), g.atom()}}}
		}
		return []obj{sInclude(eStr("inc"), with, g.rng.Intn(3) == 0)}
	case 13:
		if inMacro {
			return []obj{sText("b")}
		}
		g.blocks++
		return []obj{sBlock(fmt.Sprintf("b%d", g.blocks), g.stmts(depth-1, 1+g.rng.Intn(2), inMacro))}
	case 14:
		if g.rng.Intn(2) == 0 {
			with := noE
			if g.rng.Intn(2) == 0 {
				with = obj{"k": "hash", "pairs": [][]obj{{eName("x"), g.atom()}}}
			}
			blocks := []obj{}
			if g.rng.Intn(2) == 0 {
				blocks = append(blocks, obj{"name": "eb", "body": g.stmts(depth-1, 1, true)})
			}
			return []obj{obj{"k": "embed", "x": eStr("emb"), "with": with, "only": g.rng.Intn(2) == 0, "blocks": blocks}}
		}
		return []obj{obj{"k": "do", "x": eCall("id", g.expr(1))}}
	default:
		return []obj{obj{"k": "comment", "d": bytesOf(" c ")}}
	}
}

func jv(t string, kv ...interface{}) obj {
	o := obj{"t": t}
	for i := 0; i+1 < len(kv); i += 2 {
		o[kv[i].(string)] = kv[i+1]
	}
	return o
}

func init() {
	generators["exec"] = func(n int, seed int64, tier string) error {
		w := bufio.NewWriter(os.Stdout)
		defer w.Flush()
		rng := rand.New(rand.NewSource(seed))
		depth := 3
		if tier == "thorough" {
			depth = 5
		}
		for i := 0; i < n; i++ {
			g := &execGen{rng: rng, vars: []string{"x", "y", "z", "arr", "s", "undefined_one"}}
			body := g.stmts(1+rng.Intn(depth), 2+rng.Intn(4), false)
			main := append(append([]obj{}, g.defs...), body...)
			tpls := obj{"t": main, "inc": []obj{sText("<"), sPrint(eName("x")), sPrint(eName("y")), sSet("x", eInt(99)), sText(">")},
				"emb": []obj{sText("E["), sSet("q", eInt(1)), sBlock("eb", []obj{sText("d")}), sPrint(eName("x")), sSet("x", eInt(7)), sText("]")}}
			entry := "t"
			if rng.Intn(4) == 0 {
				// an inheriting entry template: overrides the program's blocks, calls parent()
				child := []obj{sExtends(eStr("t"))}
				for b := 1; b <= g.blocks; b++ {
					if rng.Intn(2) == 0 {
						child = append(child, sBlock(fmt.Sprintf("b%d", b), []obj{sText("C["), sPrint(eCall("parent")), sText("]"), g.probe()}))
					}
				}
				tpls["child"] = child
				entry = "child"
			}
			ctx := obj{
				"x": jv("num", "q", 5*64), "y": jv("str", "s", bytesOf("ab")), "z": jv("null"),
				"arr": jv("arr", "els", []obj{jv("num", "q", 64), jv("num", "q", 128), jv("num", "q", 192)}),
				"s":   jv("str", "s", bytesOf("1.5")),
			}
			b, err := json.Marshal(obj{"id": fmt.Sprintf("x%d-%d", seed, i), "k": "render", "env": "core", "tpls": tpls, "entry": entry, "ctx": ctx})
			if err != nil {
				return err
			}
			w.Write(b)
			w.WriteByte('\n')
		}
		return nil
	}
}
