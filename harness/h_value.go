package main

import (
	"bytes"
	"encoding/json"
	"fmt"
	"io/ioutil"
	"math"
	"runtime/debug"
	"strconv"
	"strings"

	"github.com/tyler-sommer/stick"
	"github.com/tyler-sommer/stick/twig"
)

// guard runs f and reports a panic as a string instead of letting it escape: the three coercions and the
// attribute/iteration functions are observed one by one.
func guard(f func()) (p string) {
	defer func() {
		if r := recover(); r != nil {
			p = fmt.Sprint(r)
		}
	}()
	f()
	return ""
}

func init() {
	// {"k":"coerce","v":JV} -> {str, num, bool, printed, panics}
	handlers["coerce"] = func(raw json.RawMessage) (interface{}, error) {
		var c struct {
			V JV `json:"v"`
		}
		if err := json.Unmarshal(raw, &c); err != nil {
			return nil, err
		}
		v, err := c.V.toGo()
		if err != nil {
			return nil, err
		}
		obs := map[string]interface{}{}
		var s string
		var n float64
		var b bool
		if strings.HasPrefix(c.V.ID, "csafedeep:") {
			// a process with a modest stack limit (32 MB instead of Go's 1 GB default): recursion proportional to the nesting
			// depth of a value is what is being looked for, not the absolute limit
			defer debug.SetMaxStack(debug.SetMaxStack(32 << 20))
		}
		if p := guard(func() { s = stick.CoerceString(v) }); p != "" {
			obs["str_panic"] = p
		} else {
			obs["str"] = Bytes(s)
		}
		if p := guard(func() { n = stick.CoerceNumber(v) }); p != "" {
			obs["num_panic"] = p
		} else {
			obs["num"] = numJV(n)
		}
		if p := guard(func() { b = stick.CoerceBool(v) }); p != "" {
			obs["bool_panic"] = p
		} else {
			obs["bool"] = b
		}
		// the printed form in a template
		var out string
		if p := guard(func() {
			env := stick.New(nil)
			rec := &recorder{failedAt: -1}
			if err := env.Execute("{{ v }}", rec, map[string]stick.Value{"v": v}); err != nil {
				out = "ERR:" + err.Error()
			} else {
				out = string(rec.out)
			}
		}); p != "" {
			obs["print_panic"] = p
		} else {
			obs["printed"] = Bytes(out)
		}
		// the value used as a number by a template: in arithmetic and in ordering comparisons against 1.25, given as a number
		// and as the string "1.25" - the operand is the coerced number whichever value carries it
		var used []stick.Value
		if p := guard(func() {
			env := stick.New(nil)
			env.Functions["rec"] = func(ctx stick.Context, a ...stick.Value) stick.Value {
				used = append([]stick.Value(nil), a...)
				return nil
			}
			rec := &recorder{failedAt: -1}
			if err := env.Execute("{% do rec(v + 0, v < p, v > p, v < ps, v > ps, ps >= v, ps <= v) %}", rec,
				map[string]stick.Value{"v": v, "p": 1.25, "ps": "1.25"}); err != nil {
				used = nil
			}
		}); p != "" {
			obs["use_panic"] = p
		} else if len(used) == 7 {
			obs["plus0"] = fromGo(used[0])
			cmp := make([]bool, 6)
			for i := range cmp {
				cmp[i], _ = used[i+1].(bool)
			}
			obs["cmp"] = cmp
		}
		return obs, nil
	}

	// {"k":"floatrt","bits":"<uint64 decimal>"} -> float64 -> string -> number round trip
	handlers["floatrt"] = func(raw json.RawMessage) (interface{}, error) {
		var c struct {
			Bits string `json:"bits"`
		}
		if err := json.Unmarshal(raw, &c); err != nil {
			return nil, err
		}
		u, err := strconv.ParseUint(c.Bits, 10, 64)
		if err != nil {
			return nil, err
		}
		f := math.Float64frombits(u)
		s := stick.CoerceString(f)
		back := stick.CoerceNumber(s)
		obs := map[string]interface{}{
			"in":  c.Bits,
			"str": s,
			"out": strconv.FormatUint(math.Float64bits(back), 10),
		}
		if f == math.Trunc(f) && math.Abs(f) < 1e6 {
			obs["ival"] = int64(f)
			obs["integral"] = true
		} else {
			obs["integral"] = false
		}
		return obs, nil
	}

	// {"k":"getattr","v":JV,"key":JV,"args":[JV]} -> {ok, val|err} ; never panics is part of the property
	handlers["getattr"] = func(raw json.RawMessage) (interface{}, error) {
		var c struct {
			V    JV   `json:"v"`
			Key  JV   `json:"key"`
			Args []JV `json:"args"`
		}
		if err := json.Unmarshal(raw, &c); err != nil {
			return nil, err
		}
		v, err := c.V.toGo()
		if err != nil {
			return nil, err
		}
		key, err := c.Key.toGo()
		if err != nil {
			return nil, err
		}
		args := make([]stick.Value, len(c.Args))
		for i, a := range c.Args {
			if args[i], err = a.toGo(); err != nil {
				return nil, err
			}
		}
		obs := map[string]interface{}{}
		var res stick.Value
		var gerr error
		if p := guard(func() { res, gerr = stick.GetAttr(v, key, args...) }); p != "" {
			obs["panic"] = p
			return obs, nil
		}
		if gerr != nil {
			obs["ok"] = false
			obs["err"] = gerr.Error()
		} else {
			obs["ok"] = true
			obs["val"] = fromGo(res)
		}
		// the same lookup written as a template subscript c[k]: what the template sees is GetAttr's element, or null
		// where GetAttr reports an error
		if len(args) == 0 {
			var got stick.Value
			called := false
			env := stick.New(&stick.MemoryLoader{Templates: map[string]string{"t": "{% do cap(c[k]) %}"}})
			env.Functions["cap"] = func(ctx stick.Context, a ...stick.Value) stick.Value {
				if len(a) > 0 {
					got = a[0]
				}
				called = true
				return nil
			}
			var xerr error
			if p := guard(func() { xerr = env.Execute("t", ioutil.Discard, map[string]stick.Value{"c": v, "k": key}) }); p != "" {
				obs["tpl"] = "panic"
				obs["tpl_panic"] = p
			} else if xerr != nil || !called {
				obs["tpl"] = "error"
			} else {
				obs["tpl"] = "ran"
				obs["tplval"] = fromGo(got)
			}
		}
		return obs, nil
	}

	// {"k":"iterate","v":JV} -> items handed to the Iteratee, Len, IsIterable, IsArray, IsMap, Contains of each element
	handlers["iterate"] = func(raw json.RawMessage) (interface{}, error) {
		var c struct {
			V JV `json:"v"`
		}
		if err := json.Unmarshal(raw, &c); err != nil {
			return nil, err
		}
		v, err := c.V.toGo()
		if err != nil {
			return nil, err
		}
		obs := map[string]interface{}{}
		type item struct {
			K    JV         `json:"k"`
			V    JV         `json:"v"`
			Loop stick.Loop `json:"loop"`
		}
		items := []item{}
		var vals []stick.Value
		var n int
		var ierr error
		if p := guard(func() {
			n, ierr = stick.Iterate(v, func(k, val stick.Value, l stick.Loop) (bool, error) {
				items = append(items, item{fromGo(k), fromGo(val), l})
				vals = append(vals, val)
				return false, nil
			})
		}); p != "" {
			obs["iter_panic"] = p
		} else {
			obs["iter_ok"] = ierr == nil
			obs["iter_n"] = n
			obs["items"] = items
		}
		var ln int
		var lerr error
		if p := guard(func() { ln, lerr = stick.Len(v) }); p != "" {
			obs["len_panic"] = p
		} else {
			obs["len_ok"] = lerr == nil
			obs["len"] = ln
		}
		if p := guard(func() {
			obs["iterable"] = stick.IsIterable(v)
			obs["isarray"] = stick.IsArray(v)
			obs["ismap"] = stick.IsMap(v)
		}); p != "" {
			obs["is_panic"] = p
		}
		// the Twig environment's length filter and "in" operator agree with the traversal as well
		if p := guard(func() {
			var buf bytes.Buffer
			env := twig.New(&stick.MemoryLoader{Templates: map[string]string{"t.txt": "{{ v|length }}|{% for e in v %}{{ e in v ? 1 : 0 }}{% endfor %}"}})
			if err := env.Execute("t.txt", &buf, map[string]stick.Value{"v": v}); err == nil {
				parts := strings.SplitN(buf.String(), "|", 2)
				if n, err := strconv.Atoi(parts[0]); err == nil && len(parts) == 2 {
					obs["twiglen"] = n
					obs["twigin"] = !strings.Contains(parts[1], "0")
					obs["twig"] = "ran"
				}
			}
		}); p != "" {
			obs["twig"] = "panic"
		}
		// containment agrees with the traversal: every visited element is contained
		allIn := true
		if p := guard(func() {
			for _, e := range vals {
				ok, err := stick.Contains(v, e)
				if err != nil || !ok {
					allIn = false
				}
			}
			absent, err := stick.Contains(v, "\x00no-such-element\x00")
			obs["contains_absent"] = absent
			obs["contains_err"] = err != nil
			// composite needles that are not among the elements either: another slice, another map
			for _, needle := range []stick.Value{[]int{991, 992}, map[string]int{"absent": 1}, []stick.Value{"q"}} {
				if in, err := stick.Contains(v, needle); in && err == nil {
					obs["contains_absent"] = true
				}
			}
		}); p != "" {
			obs["contains_panic"] = p
		}
		obs["contains_all"] = allIn
		// the same through a template: {% for k, v in x %}
		var out string
		if p := guard(func() {
			env := stick.New(nil)
			rec := &recorder{failedAt: -1}
			tpl := "{% for k, e in x %}{{ loop.index }}/{{ loop.revindex }}/{{ loop.first }}/{{ loop.last }}/{{ loop.length }};{% else %}EMPTY{% endfor %}"
			if err := env.Execute(tpl, rec, map[string]stick.Value{"x": v}); err != nil {
				out = "ERR"
			} else {
				out = string(rec.out)
			}
		}); p != "" {
			obs["tpl_panic"] = p
		} else {
			obs["tpl"] = out
		}
		return obs, nil
	}
}
