package main

import (
	"encoding/json"

	"github.com/tyler-sommer/stick"
	"github.com/tyler-sommer/stick/twig"
)

// faults: runs one program fault-free, then once per fault point: the destination writer failing at its
// k-th write for every k, the loader failing at its k-th load for every k (by returning an error, and by returning a template
// whose contents cannot be read to the end); the same through ExecuteSafe.
// Every run is reported as the sequence of public events the harness saw (binding T, C17).
type faultRun struct {
	Safe   bool    `json:"safe"`
	WriteK int     `json:"wk"`
	LoadK  int     `json:"lk"`
	ReadK  int     `json:"rk"` // the load that fails is one whose contents cannot be read (reported as lk too)
	Events []Event `json:"events"`
	RetOK  bool    `json:"ret_ok"`
	Err    string  `json:"err,omitempty"`
}

func init() {
	handlers["faults"] = func(raw json.RawMessage) (interface{}, error) {
		var c renderCase
		if err := json.Unmarshal(raw, &c); err != nil {
			return nil, err
		}
		srcs, err := buildSources(&c)
		if err != nil {
			return nil, err
		}
		one := func(safe bool, wk, lk int, rks ...int) (faultRun, *recorder) {
			ctx, _ := buildCtx(c.Ctx)
			rec := &recorder{srcs: srcs, writeFail: wk, loadFail: lk, failedAt: -1}
			rk := 0
			if len(rks) > 0 {
				rk = rks[0]
				rec.readFail = rk
			}
			var env *stick.Env
			if c.Env == "twig" {
				env = twig.New(rec)
			} else {
				env = stick.New(rec)
			}
			rec.register(env, c.Env == "twig")
			var xerr error
			if safe {
				xerr = env.ExecuteSafe(c.Entry, rec, ctx)
			} else {
				xerr = env.Execute(c.Entry, rec, ctx)
			}
			fr := faultRun{Safe: safe, WriteK: wk, LoadK: lk + rk, ReadK: rk, RetOK: xerr == nil}
			if xerr != nil {
				fr.Err = xerr.Error()
			}
			for _, ev := range rec.log {
				if ev.E == "w" || ev.E == "load" {
					fr.Events = append(fr.Events, ev)
				}
			}
			if fr.Events == nil {
				fr.Events = []Event{}
			}
			return fr, rec
		}
		if _, err := buildCtx(c.Ctx); err != nil {
			return nil, err
		}
		var runs []faultRun
		base, rec := one(false, 0, 0)
		runs = append(runs, base)
		W, L := rec.writes, rec.loads
		if W > 60 {
			W = 60
		}
		if L > 30 {
			L = 30
		}
		for k := 1; k <= W; k++ {
			r, _ := one(false, k, 0)
			runs = append(runs, r)
		}
		for k := 1; k <= L; k++ {
			r, _ := one(false, 0, k)
			runs = append(runs, r)
		}
		sbase, srec := one(true, 0, 0)
		runs = append(runs, sbase)
		for k := 1; k <= srec.writes && k <= 3; k++ {
			r, _ := one(true, k, 0)
			runs = append(runs, r)
		}
		for k := 1; k <= L; k++ {
			r, _ := one(true, 0, k)
			runs = append(runs, r)
		}
		// a template that is found and whose contents cannot be read to the end is a template that cannot be loaded
		for k := 1; k <= L; k++ {
			r, _ := one(false, 0, 0, k)
			runs = append(runs, r)
			r, _ = one(true, 0, 0, k)
			runs = append(runs, r)
		}
		so := map[string]string{}
		for n, s := range srcs {
			so[n] = string(s)
		}
		return map[string]interface{}{"runs": runs, "srcs": so, "writes": rec.writes, "loads": rec.loads}, nil
	}
}
