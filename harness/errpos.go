package main

import "reflect"

// errPos extracts Line/Offset from stick's parse errors (exported fields promoted from parse.Pos).
func errPos(err error) (line, col int, ok bool) {
	defer func() {
		if recover() != nil {
			ok = false
		}
	}()
	v := reflect.ValueOf(err)
	for v.Kind() == reflect.Ptr || v.Kind() == reflect.Interface {
		if v.IsNil() {
			return 0, 0, false
		}
		v = v.Elem()
	}
	if v.Kind() != reflect.Struct {
		return 0, 0, false
	}
	l := v.FieldByName("Line")
	o := v.FieldByName("Offset")
	if !l.IsValid() || !o.IsValid() {
		return 0, 0, false
	}
	return int(l.Int()), int(o.Int()), true
}
