package main

import (
	"bufio"
	"encoding/json"
	"fmt"
	"os"
	"runtime/debug"
	"time"
)

// A handler runs one case against the real code and returns the observation.
type handler func(raw json.RawMessage) (interface{}, error)

var handlers = map[string]handler{}

type caseKind struct {
	ID string `json:"id"`
	K  string `json:"k"`
}

func workerMain() int {
	// a runaway recursion in the code under test must fail fast, not fill 1 GB of stack first
	debug.SetMaxStack(64 << 20)
	in := bufio.NewReaderSize(os.Stdin, 1<<20)
	out := bufio.NewWriterSize(os.Stdout, 1<<20)
	for {
		line, err := in.ReadBytes('\n')
		if len(line) > 1 {
			n0 := lexerGoroutines()
			res := runCase(line)
			// The tokeniser runs in its own goroutine and may outlive the call that started it. Its last steps belong to
			// THIS case: wait (bounded) until the goroutines this case started are gone before answering, so that a crash
			// in them is attributed to the case that caused it and not to whichever case happens to run next.
			for w := 0; w < 60 && lexerGoroutines() > n0; w++ {
				time.Sleep(time.Duration(1+w/10) * time.Millisecond)
			}
			b, merr := json.Marshal(res)
			if merr != nil {
				b, _ = json.Marshal(map[string]interface{}{"id": res["id"], "st": "badobs", "err": merr.Error()})
			}
			out.Write(b)
			out.WriteByte('\n')
			out.Flush()
		}
		if err != nil {
			return 0
		}
	}
}

func runCase(line []byte) (res map[string]interface{}) {
	var ck caseKind
	if err := json.Unmarshal(line, &ck); err != nil {
		return map[string]interface{}{"id": "?", "st": "badcase", "err": err.Error()}
	}
	res = map[string]interface{}{"id": ck.ID}
	h, ok := handlers[ck.K]
	if !ok {
		res["st"] = "badcase"
		res["err"] = "unknown kind " + ck.K
		return
	}
	defer func() {
		if r := recover(); r != nil {
			res["st"] = "panic"
			res["err"] = fmt.Sprint(r)
			res["stack"] = trimStack(string(debug.Stack()))
		}
	}()
	obs, err := h(json.RawMessage(line))
	if err != nil {
		res["st"] = "badcase"
		res["err"] = err.Error()
		return
	}
	res["st"] = "ok"
	res["obs"] = obs
	return
}

func trimStack(s string) string {
	if len(s) > 2500 {
		return s[:2500]
	}
	return s
}
