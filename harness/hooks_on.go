//go:build verif

package main

const hooksEnabled = true
