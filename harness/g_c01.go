package main

import (
	"bufio"
	"encoding/json"
	"fmt"
	"math/rand"
	"os"
)

// c01: seeded random sources: uniform bytes, delimiter-biased strings, and mutations (byte deletion, insertion,
// truncation) of the well-formed corpus templates.
var c01Corpus = []string{
	"Hello, {{ name }}!",
	`<li class="{% if active %}active{% endif %}">`,
	"{% extends 'base' %}{% block test %}world{% endblock %}",
	"{% include 'Hello, {{ name }}!' with {\"name\": \"world\", \"value\": \"!\"} only %}",
	"{% embed 'x' %}{% block name %}Tyler{% endblock %}{% endembed %}",
	"{% for i in test %}{% for j in i %}{{ j }}{{ loop.index }}{% if loop.first %},{% endif %}{% endfor %}{% else %}none{% endfor %}",
	"{% for k, v in data if v > 1 %}Record {{ loop.index }}: {{ k }}: {{ v }}{% endfor %}",
	"{{ 4.5 * 10 }} - {{ 3 + true }} - {{ 3 + 4 == 7.0 }} - {{ 10 % 2 == 0 }} - {{ 10 ** 2 > 99.9 and 10 ** 2 <= 100 }}",
	"{{ 5 in set and 4 not in set }}{{ a is divisible by(3) ? 'y' : \"n#{a}\" }}",
	"{% set val = 'a value' %}{% set var2 %}{{ var1 }} World!{% endset %}{{ var2|upper|default('x') }}",
	"{% macro tester(var0, var1) %}{% set var0 = var0 + 1 %}{% endmacro %}{% import _self as m %}{{ m.tester(1, [1, 2], {a: 1}) }}",
	"{% from 'lib' import a as b, c %}{% use 'u' with x as y %}{% do b(1) %}",
	"{# comment {{ x }} #}{#- trimmed -#}{% verbatim %}{{ raw }}{% endverbatim %}{%- if a -%}b{%- endif -%}",
	"{% filter upper|lower %}text{% endfilter %}{{ a.b.c[1]['k'].m(1, 2)|join(', ') }}\n{{ not a b-and 3 starts with 'x' .. 5 }}",
}

func init() {
	generators["c01"] = func(n int, seed int64, tier string) error {
		w := bufio.NewWriter(os.Stdout)
		defer w.Flush()
		rng := rand.New(rand.NewSource(seed))
		id := 0
		emit := func(tag string, b []byte) {
			id++
			js, _ := json.Marshal(map[string]interface{}{"id": fmt.Sprintf("%s-%d", tag, id), "k": "total", "src": Bytes(b), "tag": tag, "dl": 4000})
			w.Write(js)
			w.WriteByte('\n')
		}
		frags := []string{"{{", "}}", "{%", "%}", "{#", "#}", "-", " ", "\n", "\r", "\t", "'", "\"", "#{", "}", "(", ")", "[", "]", "{", "|", ".", ",", ":", "?",
			"=", "if", "endif", "for", "in", "endfor", "set", "block", "endblock", "x", "1", "not", "and", "is", "**", "%", "~", "..", "\xc3\xa9", "\xff", "verbatim", "endverbatim"}
		// every prefix and every single-byte deletion of the corpus
		for _, c := range c01Corpus {
			for i := 0; i <= len(c); i++ {
				emit("prefix", []byte(c[:i]))
			}
			for i := 0; i < len(c); i++ {
				emit("delete", []byte(c[:i]+c[i+1:]))
			}
		}
		// every insertion, at every position of the corpus, of a fragment that makes the TOKENISER fail or change state
		// (a quote, an illegal character, an invalid byte, an opening bracket, the beginning of a comment): every parse
		// function meets a tokeniser error at every point of its tag
		for _, c := range c01Corpus {
			for i := 0; i <= len(c); i++ {
				for _, f := range []string{"'", "$", "\xff", "(", "\"", "{#", "#{"} {
					emit("inject", []byte(c[:i]+f+c[i:]))
				}
			}
		}
		for i := 0; i < n; i++ {
			switch rng.Intn(4) {
			case 0: // uniform bytes
				b := make([]byte, rng.Intn(40))
				rng.Read(b)
				emit("bytes", b)
			case 1: // delimiter-biased
				var s []byte
				for k := rng.Intn(12); k >= 0; k-- {
					s = append(s, frags[rng.Intn(len(frags))]...)
				}
				emit("frags", s)
			case 2: // insertion of a fragment into a corpus template
				c := c01Corpus[rng.Intn(len(c01Corpus))]
				p := rng.Intn(len(c) + 1)
				emit("insert", []byte(c[:p]+frags[rng.Intn(len(frags))]+c[p:]))
			default: // deletion of a random span
				c := c01Corpus[rng.Intn(len(c01Corpus))]
				p := rng.Intn(len(c))
				q := p + 1 + rng.Intn(6)
				if q > len(c) {
					q = len(c)
				}
				emit("span", []byte(c[:p]+c[q:]))
			}
		}
		return nil
	}
}
