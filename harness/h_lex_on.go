//go:build verif

package main

import (
	"encoding/json"

	"github.com/tyler-sommer/stick/parse"
)

func init() {
	// {"k":"lex","src":[bytes]} -> {tokens: [{typ,val,line,col}]}
	handlers["lex"] = func(raw json.RawMessage) (interface{}, error) {
		var c struct {
			Src Bytes `json:"src"`
		}
		if err := json.Unmarshal(raw, &c); err != nil {
			return nil, err
		}
		toks := parse.VerifLex(string(c.Src))
		out := make([]map[string]interface{}, len(toks))
		for i, t := range toks {
			out[i] = map[string]interface{}{"typ": t.Type, "val": Bytes(t.Value), "line": t.Line, "col": t.Offset}
		}
		return map[string]interface{}{"tokens": out}, nil
	}
}
